"""C06 mutation strategy: a valid namespace from the fold generator + exactly one invalidating mutation.

Every mutation kind makes the namespace invalid by the rules stated in frontends/dsl.py's docstrings and error messages
(unknown step / template / parameter, missing argument without default, cycles, references that do not start at a
sibling step, malformed references, duplicate definitions, schema violations). The kind is drawn uniformly among the
kinds applicable to the drawn document, then the site.
"""
from __future__ import annotations

import copy
import re
from typing import Any, Dict, List, Optional, Tuple

from hypothesis import strategies as st

from . import c06_fold as G

REF = re.compile(r'^(?P<q>"?)<(?P<inside>[^<>":]+?)(?P<slash>/?)>(?P=q)(?P<outside>(?:/[^/:<>"]+)*)(?::(?P<method>[a-z]+))?$')
UNKNOWN = "zz-none"


def _wf_by_name(doc):
    return {w["signature"]["name"]: w for w in doc.get("workflows", [])}


def _comp_by_name(doc):
    return {c["signature"]["name"]: c for c in doc.get("components", [])}


def _reachable(doc) -> Tuple[List[str], Dict[str, List[str]]]:
    """(names of workflow templates reachable from the entrypoint in BFS order, parents map)"""
    wfs = _wf_by_name(doc)
    root = doc["entrypoint"]["entry-instance"]
    order, parents = [], {}
    todo = [root] if root in wfs else []
    while todo:
        n = todo.pop(0)
        if n in order:
            continue
        order.append(n)
        for tpl in wfs[n]["steps"].values():
            if tpl in wfs:
                parents.setdefault(tpl, [])
                if n not in parents[tpl]:
                    parents[tpl].append(n)
                todo.append(tpl)
    return order, parents


def _ancestors(name: str, parents: Dict[str, List[str]]) -> List[str]:
    out, todo = [], [name]
    while todo:
        n = todo.pop(0)
        if n in out:
            continue
        out.append(n)
        todo.extend(parents.get(n, []))
    return out


def _params(tpl) -> List[Dict[str, Any]]:
    return tpl["signature"].get("parameters") or []


def _template(doc, name):
    return _wf_by_name(doc).get(name) or _comp_by_name(doc).get(name)


def _parse_ref(txt):
    if not isinstance(txt, str):
        return None
    m = REF.match(txt)
    if not m:
        return None
    inside = m.group("inside").split("/")
    outside = [s for s in m.group("outside").split("/") if s]
    return {"q": m.group("q"), "inside": inside, "outside": outside, "method": m.group("method"),
            "slash": m.group("slash")}


def _fmt_ref(r) -> str:
    txt = "%s<%s%s>%s" % (r["q"], "/".join(r["inside"]), r["slash"], r["q"])
    if r["outside"]:
        txt += "/" + "/".join(r["outside"])
    if r["method"]:
        txt += ":" + r["method"]
    return txt


def sites(doc, override) -> Dict[str, List[Any]]:
    """kind -> list of sites (JSON-able descriptions consumed by `apply`)."""
    out: Dict[str, List[Any]] = {}

    def add(kind, site):
        out.setdefault(kind, []).append(site)

    wfs = doc.get("workflows", [])
    comps = doc.get("components", [])
    wf_names = _wf_by_name(doc)
    reach, parents = _reachable(doc)
    used_comps = set()
    for wi, w in enumerate(wfs):
        name = w["signature"]["name"]
        if name not in reach:
            continue
        for ei, e in enumerate(w["execute"]):
            step = e["target"][1:-1]
            tname = w["steps"][step]
            tpl = _template(doc, tname)
            if tname not in wf_names:
                used_comps.add(tname)
            add("unknown-step-in-execute", [wi, ei])
            add("unknown-argument", [wi, ei])
            add("duplicate-execute-entry", [wi, ei])
            add("step-without-execute-entry", [wi, ei])
            args = e.get("args") or {}
            for p in _params(tpl):
                if "default" not in p and p["name"] in args:
                    add("missing-argument-without-default", [wi, ei, p["name"]])
                add("unknown-parent-parameter", [wi, ei, p["name"]])
            for an, av in args.items():
                r = _parse_ref(av)
                if r is None:
                    continue
                add("reference-to-non-sibling", [wi, ei, an, "unknown"])
                add("reference-to-non-sibling", [wi, ei, an, "self"])
                if r["method"] and not r["outside"] and not r["q"] and not r["slash"]:
                    add("method-inside-brackets", [wi, ei, an])
                if w["steps"].get(r["inside"][0]) in wf_names and len(r["inside"]) + len(r["outside"]) >= 2:
                    add("unknown-nested-step", [wi, ei, an])
                if r["method"] and tname not in wf_names and an in ("r", "s"):
                    add("reference-without-method", [wi, ei, an])
        for sn in w["steps"]:
            add("unknown-template", [wi, sn])
        for anc in _ancestors(name, parents):
            add("workflow-cycle", [wi, anc])
        add("extra-field", ["workflows", wi])
        add("execute-target-without-brackets", [wi])
    root = doc["entrypoint"]["entry-instance"]
    rt = wf_names.get(root)
    eargs = doc["entrypoint"]["execute"][0].get("args") or {}
    if rt is not None:
        for p in _params(rt):
            if "default" not in p and p["name"] in eargs and p["name"] not in (override or {}):
                add("missing-argument-without-default", ["entry", p["name"]])
            if p["name"] not in (override or {}):
                add("reference-in-entrypoint-args", [p["name"]])
        add("unknown-argument", ["entry"])
    add("unknown-entry-instance", [])
    add("missing-entrypoint", [])
    add("two-entrypoint-executes", [])
    add("extra-field", ["entrypoint"])
    for ci, c in enumerate(comps):
        add("duplicate-template-name", ["components", ci])
        add("extra-field", ["components", ci])
        add("component-name-ends-in-digit", [ci])
        if _params(c):
            add("duplicate-parameter", ["components", ci])
            add("variable-shadows-parameter", [ci])
        if c["signature"]["name"] in used_comps:
            add("unknown-parameter-in-component", [ci])
    for wi, w in enumerate(wfs):
        add("duplicate-template-name", ["workflows", wi])
        if _params(w):
            add("duplicate-parameter", ["workflows", wi])
    return out


def apply(doc, kind: str, site) -> Tuple[Dict[str, Any], str]:
    doc = copy.deepcopy(doc)
    wfs = doc.get("workflows", [])
    comps = doc.get("components", [])

    def entry(wi, ei):
        e = wfs[wi]["execute"][ei]
        e.setdefault("args", {})
        return e

    if kind == "unknown-step-in-execute":
        wi, ei = site
        old = wfs[wi]["execute"][ei]["target"]
        wfs[wi]["execute"][ei]["target"] = "<%s>" % UNKNOWN
        return doc, "workflow %s: execute target %s -> <%s>" % (wfs[wi]["signature"]["name"], old, UNKNOWN)
    if kind == "unknown-template":
        wi, sn = site
        wfs[wi]["steps"][sn] = "no-such-template"
        return doc, "workflow %s: step %s instantiates no-such-template" % (wfs[wi]["signature"]["name"], sn)
    if kind == "missing-argument-without-default":
        if site[0] == "entry":
            del doc["entrypoint"]["execute"][0]["args"][site[1]]
            return doc, "entrypoint no longer supplies %s (no default)" % site[1]
        wi, ei, an = site
        del wfs[wi]["execute"][ei]["args"][an]
        return doc, "workflow %s: %s no longer receives %s (no default)" % (
            wfs[wi]["signature"]["name"], wfs[wi]["execute"][ei]["target"], an)
    if kind == "unknown-argument":
        if site[0] == "entry":
            doc["entrypoint"]["execute"][0].setdefault("args", {})["zz-unknown"] = "x"
            return doc, "entrypoint passes unknown argument zz-unknown"
        wi, ei = site
        entry(wi, ei)["args"]["zz-unknown"] = "x"
        return doc, "workflow %s: %s receives unknown argument zz-unknown" % (
            wfs[wi]["signature"]["name"], wfs[wi]["execute"][ei]["target"])
    if kind == "workflow-cycle":
        wi, anc = site
        tpl = _wf_by_name(doc)[anc]
        wfs[wi]["steps"]["cyc"] = anc
        wfs[wi]["execute"].append({"target": "<cyc>",
                                   "args": {p["name"]: "x" for p in _params(tpl) if "default" not in p}})
        return doc, "workflow %s gets a step instantiating its ancestor %s" % (wfs[wi]["signature"]["name"], anc)
    if kind == "reference-to-non-sibling":
        wi, ei, an, how = site
        e = wfs[wi]["execute"][ei]
        r = _parse_ref(e["args"][an])
        r["inside"][0] = UNKNOWN if how == "unknown" else e["target"][1:-1]
        old = e["args"][an]
        e["args"][an] = _fmt_ref(r)
        return doc, "workflow %s: %s.%s %s -> %s" % (wfs[wi]["signature"]["name"], e["target"], an, old, e["args"][an])
    if kind == "method-inside-brackets":
        wi, ei, an = site
        e = wfs[wi]["execute"][ei]
        r = _parse_ref(e["args"][an])
        old = e["args"][an]
        e["args"][an] = "<%s:%s>" % ("/".join(r["inside"]), r["method"])
        return doc, "workflow %s: %s.%s %s -> %s" % (wfs[wi]["signature"]["name"], e["target"], an, old, e["args"][an])
    if kind == "unknown-nested-step":
        wi, ei, an = site
        e = wfs[wi]["execute"][ei]
        r = _parse_ref(e["args"][an])
        if len(r["inside"]) >= 2:
            r["inside"][1] = UNKNOWN
        else:
            r["outside"][0] = UNKNOWN
        old = e["args"][an]
        e["args"][an] = _fmt_ref(r)
        return doc, "workflow %s: %s.%s %s -> %s (no such step in the nested workflow)" % (
            wfs[wi]["signature"]["name"], e["target"], an, old, e["args"][an])
    if kind == "reference-without-method":
        wi, ei, an = site
        e = wfs[wi]["execute"][ei]
        r = _parse_ref(e["args"][an])
        r["method"] = None
        old = e["args"][an]
        e["args"][an] = _fmt_ref(r)
        return doc, "workflow %s: %s.%s %s -> %s (component does not add a method)" % (
            wfs[wi]["signature"]["name"], e["target"], an, old, e["args"][an])
    if kind == "unknown-parent-parameter":
        wi, ei, an = site
        entry(wi, ei)["args"][an] = "x%%(%s)s" % UNKNOWN
        return doc, "workflow %s: %s.%s references parameter %s which the workflow does not have" % (
            wfs[wi]["signature"]["name"], wfs[wi]["execute"][ei]["target"], an, UNKNOWN)
    if kind == "duplicate-execute-entry":
        wi, ei = site
        wfs[wi]["execute"].append(copy.deepcopy(wfs[wi]["execute"][ei]))
        return doc, "workflow %s: execute entry %s twice" % (wfs[wi]["signature"]["name"],
                                                             wfs[wi]["execute"][ei]["target"])
    if kind == "step-without-execute-entry":
        wi, ei = site
        e = wfs[wi]["execute"].pop(ei)
        return doc, "workflow %s: no execute entry for step %s" % (wfs[wi]["signature"]["name"], e["target"])
    if kind == "unknown-entry-instance":
        doc["entrypoint"]["entry-instance"] = "no-such-template"
        return doc, "entry-instance names no template"
    if kind == "missing-entrypoint":
        del doc["entrypoint"]
        return doc, "no entrypoint"
    if kind == "two-entrypoint-executes":
        doc["entrypoint"]["execute"].append(copy.deepcopy(doc["entrypoint"]["execute"][0]))
        return doc, "entrypoint.execute has two entries"
    if kind == "reference-in-entrypoint-args":
        doc["entrypoint"]["execute"][0].setdefault("args", {})[site[0]] = "<a>:ref"
        return doc, "entrypoint argument %s is an output reference (the entry instance has no siblings)" % site[0]
    if kind == "duplicate-parameter":
        col, i = site
        ps = doc[col][i]["signature"]["parameters"]
        ps.append(copy.deepcopy(ps[0]))
        return doc, "%s[%d]: parameter %s declared twice" % (col, i, ps[0]["name"])
    if kind == "duplicate-template-name":
        col, i = site
        doc[col].append(copy.deepcopy(doc[col][i]))
        return doc, "%s: template %s defined twice" % (col, doc[col][i]["signature"]["name"])
    if kind == "variable-shadows-parameter":
        c = comps[site[0]]
        c.setdefault("variables", {})[_params(c)[0]["name"]] = "x"
        return doc, "component %s: variable named like parameter %s" % (c["signature"]["name"], _params(c)[0]["name"])
    if kind == "unknown-parameter-in-component":
        c = comps[site[0]]
        c["command"]["arguments"] += " %%(%s)s" % UNKNOWN
        return doc, "component %s: arguments reference unknown parameter %s" % (c["signature"]["name"], UNKNOWN)
    if kind == "extra-field":
        if site[0] == "entrypoint":
            doc["entrypoint"]["bogus"] = 1
        else:
            doc[site[0]][site[1]]["bogus"] = 1
        return doc, "unknown field 'bogus' in %s" % "/".join(map(str, site))
    if kind == "component-name-ends-in-digit":
        c = comps[site[0]]
        old = c["signature"]["name"]
        new = old + "7"
        c["signature"]["name"] = new
        for w in wfs:
            for sn, t in list(w["steps"].items()):
                if t == old:
                    w["steps"][sn] = new
        return doc, "component template %s renamed to %s" % (old, new)
    if kind == "execute-target-without-brackets":
        w = wfs[site[0]]
        w["execute"][0]["target"] = w["execute"][0]["target"][1:-1]
        return doc, "workflow %s: execute target %s without <>" % (w["signature"]["name"], w["execute"][0]["target"])
    raise AssertionError("unknown mutation kind %s" % kind)


KINDS = ["extra-field", "unknown-step-in-execute", "unknown-template", "missing-argument-without-default",
         "unknown-argument", "workflow-cycle", "reference-to-non-sibling", "method-inside-brackets",
         "unknown-nested-step", "reference-without-method", "unknown-parent-parameter", "duplicate-execute-entry",
         "step-without-execute-entry", "unknown-entry-instance", "missing-entrypoint", "reference-in-entrypoint-args",
         "duplicate-parameter", "duplicate-template-name", "variable-shadows-parameter",
         "unknown-parameter-in-component", "component-name-ends-in-digit", "execute-target-without-brackets",
         "two-entrypoint-executes"]


@st.composite
def invalid_case(draw):
    ch = G.Ch(draw)
    want = ch.n(len(KINDS))
    # step names that are known to crash the compiler on their own (C06 valid sub-check) are not used here
    base = G.build_case(ch, hazards=False)
    cand = sites(base["doc"], base["override"])
    kind = next(KINDS[(want + i) % len(KINDS)] for i in range(len(KINDS)) if KINDS[(want + i) % len(KINDS)] in cand)
    site = ch.pick(cand[kind])
    doc, detail = apply(base["doc"], kind, site)
    return {"doc": doc, "override": base["override"], "mutation": kind, "detail": detail, "site": site}
