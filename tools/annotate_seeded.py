#!/usr/bin/env python3
"""annotate_seeded.py <ID> <name> key=value ...   (adds fields to seeded/<ID>/<name>/meta.json)"""
import json, sys, os
id_, name = sys.argv[1:3]
p = os.path.join(os.path.dirname(os.path.dirname(os.path.abspath(__file__))), "seeded", id_, name, "meta.json")
m = json.load(open(p))
for kv in sys.argv[3:]:
    k, v = kv.split("=", 1)
    m[k] = json.loads(v) if v in ("true", "false") or v[:1] in "[{" else v
json.dump(m, open(p, "w"), indent=1)
