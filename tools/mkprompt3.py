#!/usr/bin/env python3
"""mkprompt3.py <ID> : writes /tmp/seed/<ID>.prompt3.txt (third seeding wave, changes E and F) from the wave-2 prompt and
the `needs` recorded in seeded/<ID>/*/meta.json. The prompt contains nothing from /verif except those one-line trigger
descriptions of the changes already taken."""
import json, os, re, sys, glob
V = os.path.dirname(os.path.dirname(os.path.abspath(__file__)))
id_ = sys.argv[1]
x, y = (sys.argv[2], sys.argv[3]) if len(sys.argv) > 3 else ("E", "F")
src = open("/tmp/seed/%s.prompt2.txt" % id_).read()
head, rest = src.split("Two other engineers have already produced changes", 1)
tail = rest[rest.index("Your task:"):]
taken = []
for p in sorted(glob.glob(os.path.join(V, "seeded", id_, "*", "meta.json"))):
    m = json.load(open(p))
    diff = open(os.path.join(os.path.dirname(p), "patch.diff")).read()
    files = sorted({l.split(" b/")[-1].strip() for l in diff.splitlines() if l.startswith("diff --git")})
    taken.append("  - already taken (%s): a change in %s that needs: %s" % (m["name"], ", ".join(files), m.get("needs", "?")))
mid = ("Other engineers have already produced %d changes for this property; do NOT repeat their ideas (pick different "
       "mechanisms,\ndifferent code sites or different trigger conditions - the more different the better; in particular "
       "look at code sites and\nmechanisms listed in the property record that nobody touched yet):\n" % len(taken)) + "\n".join(taken) + "\n\n"
tail = tail.replace("(call them C and D;", "(call them %s and %s;" % (x, y)).replace(
    "-out/C/ (resp. .../D/)", "-out/%s/ (resp. .../%s/)" % (x, y)).replace("summary of C and D", "summary of %s and %s" % (x, y))
assert "%s and %s" % (x, y) in tail and "-out/%s/" % x in tail
open("/tmp/seed/%s.prompt%s.txt" % (id_, "3" if x == "E" else "4"), "w").write(head + mid + tail)
print(id_, len(taken), "taken")
