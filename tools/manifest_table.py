NOTES = ("All checks are Hypothesis property-based tests run by `python -m vf.run <ID>`; evidence is rewritten on every "
         "run; genuine defects repaired in /repo are listed as 'fixed' in known_findings.json, unrepaired ones as 'open' "
         "(printed as KNOWN-FINDING lines). See DESIGN.md.")
NOT_YET = {}

add("C20", "exploration", "property-based testing (Hypothesis): constructed weight vectors vs exact-rational oracle; "
    "real StatusMonitor progress vs weighted-sum model",
    "Generated stage-weight vectors (exact decimal/dyadic partitions of one, perturbed, malformed) are loaded through "
    "FlowIRConcrete and through a real package+StatusMonitor; outputs are checked for non-negativity, unit sum, "
    "preservation of valid weights, and total progress in [0,1] (=1 when complete) against an exact-rational oracle. "
    "Small partitions are enumerated exhaustively. Held-on-everything-generated, not a proof.",
    "Trusts the scripted controller double to reflect Controller.get_stage_status/get_stages_*; near-one (within 1e-3) "
    "inexact sums are outside the generated domain.", "DESIGN.md section 3, C20")
