NOTES = ("All checks are Hypothesis property-based tests run by `python -m vf.run <ID>`; evidence is rewritten on every "
         "run; genuine defects repaired in /repo are listed as 'fixed' in known_findings.json, unrepaired ones as 'open' "
         "(printed as KNOWN-FINDING lines). See DESIGN.md.")
NOT_YET = {}

add("C20", "exploration", "property-based testing (Hypothesis): constructed weight vectors vs exact-rational oracle; "
    "real StatusMonitor progress vs weighted-sum model",
    "Generated stage-weight vectors (exact decimal/dyadic partitions of one, perturbed, malformed) are loaded through "
    "FlowIRConcrete and through a real package+StatusMonitor; outputs are checked for non-negativity, unit sum, "
    "preservation of valid weights, and total progress in [0,1] (=1 when complete) against an exact-rational oracle. "
    "Small partitions are enumerated exhaustively. The status-report mapping is also listed in permuted order / "
    "without entries for weight-less stages. Sub-check `controller`: the real Controller's get_stages_in_transit / "
    "get_stages_finished / get_stage_status feed the real CheckStatus over generated combinations of component states "
    "and observed (comp_done) flags. Held-on-everything-generated, not a proof.",
    "The `monitor` sub-check scripts the controller's answers; the `controller` sub-check sets component states and "
    "comp_done directly (including combinations the sequential stage loop does not produce); near-one (within 1e-3) "
    "inexact sums are outside the generated domain.", "DESIGN.md section 3, C20")

_RT_NOTE = ("Trusted base: the deterministic kernel in vf/rt (replaces reactivex thread pools/timers, time.sleep, "
            "datetime.now, threading.Thread and monitor.CreateMonitor's polling thread by one harness-owned virtual-time "
            "scheduler; pool capacity/FIFO semantics modelled), scripted task doubles for the backend; callbacks are "
            "atomic (no pre-emption inside one callback).")
add("C01", "exploration", "property-based testing (Hypothesis): generated workflows x exit scripts x harness-owned "
    "schedules of the real Controller/ComponentState/Engine; launch-time history invariant vs independent replication model",
    "Every task launch of the real runtime (Controller, ComponentState, Engine, RepeatingEngine unmodified) is checked "
    "against the dataflow model: producers final (or, for a same-stage repeating consumer, launched), none failed, none "
    "shut down for non-aggregating consumers - over generated DAGs with stages, replicas, aggregators, observers, failing "
    "and restarting tasks, under Hypothesis-chosen interleavings of callbacks, task exits and scheduler passes. "
    "Held on everything generated; schedules are replayable decision lists.", _RT_NOTE, "DESIGN.md section 3, C01")
add("C02", "exploration", "property-based testing (Hypothesis): same runtime harness; rule model of final states + "
    "metamorphic agreement between several schedules of one (workflow, exit script); bounded-quiescence termination",
    "Each generated (workflow, exit-reason script) runs under a drawn schedule plus FIFO and LIFO delivery; checked: "
    "the stage loop terminates (bounded virtual-time quiescence), every component of a completed stage is final, final "
    "states equal the rule model written from the statement when no exit is unrecoverable, otherwise >=1 failed "
    "component, failed stage, others in rule state or shut down; and schedules agree. One open known finding (observer "
    "of a shut-down subject) is excluded by signature.", _RT_NOTE + " Liveness is only checked as bounded quiescence.",
    "DESIGN.md section 3, C02")

add("C09", "exploration", "property-based testing (Hypothesis): grammar-built reference strings and name-set 'worlds'; "
    "round-trip, idempotence, relative/absolute differential and an independent classifier as oracles",
    "References are built by construction from stage prefixes, confusable producer names (dots, dashes, digits, loop "
    "prefixes), nested paths and all methods, under generated sets of components, application dependencies and manifest "
    "keys. Checked: print(parse(r)) == r, expansion idempotent, relative and absolute spellings agree in "
    "DataReference/ComponentIdentifier, an independent classifier written from the statement agrees with "
    "ParseDataReferenceFull / is_datareference_to_component / expand_component_references / Manifest.top_level_folders, "
    "and FlowIRConcrete.validate + package loading accept folder references. Sub-check `implied`: "
    "Manifest.fromDirectory() of a generated directory (folders, files, links, link chains) equals what the directory "
    "holds. Held on everything generated.",
    "Single-segment absolute paths and component names that equal a folder name (documented as unsupported) are outside "
    "the asserted domain; copyout references are kept out of command lines (tokeniser ambiguity noted for C10/C11).",
    "DESIGN.md section 3, C09")
add("C14", "fault_enumeration", "property-based testing with fault injection (Hypothesis): generated update histories; "
    "every write boundary of one update enumerated in forked children that die (os._exit) or raise OSError there; "
    "round-trip read-back oracle",
    "For status.txt, output.txt/json, status_details.json, flowir_instance.yaml and manifest.yaml the real writers run "
    "under shims that count open/write/flush/close/rename boundaries; for each boundary and fault kind (die, "
    "die-after-flush, OSError, partial write + OSError) a forked child re-runs the update and the file must afterwards be "
    "the complete previous or new version and load with the repository's loader; fault-free histories of 1-6 updates "
    "with hostile characters must read back exactly. Sub-check `long`: 150-600 successive updates by one forked "
    "child whose open-file limit is lowered (no matter how many updates preceded it).",
    "Process death / I/O errors are injected at Python-level boundaries (not power loss or page-cache reordering); for "
    "FlowIR dumps with hundreds of emitter writes the write boundaries are sampled (counts in evidence).",
    "DESIGN.md section 3, C14")

add("C12", "exploration", "property-based testing (Hypothesis): generated exit-reason sequences x restart options x "
    "scripted restart-hook outcomes, executed by the real Controller/Engine under the deterministic kernel; launch "
    "history checked against the policy bounds of the statement",
    "A one-component experiment is driven through up to 25 scripted task exits with every combination of maxRestarts, "
    "restartHookFile (unset/empty/custom, present or missing), restartHookOn and hook behaviour (possible, not "
    "required, not possible, failed, raising, junk, bool, IOError). Checked on the launch history: relaunch only after a "
    "listed reason or SubmissionFailed, never after Killed/Cancelled/Success, restarts <= maximum (3 default, unlimited "
    "only for -1 or a named hook file), <=5 consecutive re-submissions, final state after a refusal and termination of "
    "the stage loop. Sub-check `observer`: restart launches of a repeating component whose final execution died of "
    "ResourceExhausted (bounded, terminating). Late-restart probe: restart() on components that already hold a final "
    "state must not launch anything. Sub-check `engine`: Engine.restart()/kill() used directly (run -> exit -> restart "
    "-> kill at a generated offset -> restart): no launch after a kill, exit reason Killed/Cancelled when the kill "
    "prevented the relaunch. Failed submissions are raised by the task generator or reported by an accepted task.",
    _RT_NOTE, "DESIGN.md section 3, C12")
add("C08", "exploration", "property-based testing (Hypothesis): generated histories of mutator/query calls; differential "
    "oracle = FlowIRConcrete rebuilt from raw() after every step; returned configurations scribbled on",
    "State-aware generated histories (set/delete component variables and options, global/stage/platform variables, "
    "add/update/delete components, queries on any platform, through FlowIRConcrete and through "
    "FlowIRExperimentConfiguration.setOptionForNode/removeOptionForNode) over confusable component names; after every "
    "step every (component, platform) query must equal - value or exception class - the answer of a FlowIRConcrete "
    "rebuilt from scratch, and mutating a returned configuration in place must not change raw() or later answers.",
    "Public mutators only, no retained return_copy=False references, declared platforms plus one platform created by "
    "the per-platform stage setter, names in [A-Za-z0-9_.-]+, flag combinations used by repository callers.",
    "DESIGN.md section 3, C08")
add("C17", "exploration", "property-based testing (Hypothesis): generated packages x launch environments; independent "
    "environment model written from the statement; sentinel leak check",
    "Packages with environments on default/selected/unrelated platforms in mixed-case spellings, DEFAULTS lists, $X/${X} "
    "references, interpreter components and every environment selector (unset, empty, none, environment, named, "
    "undefined; a twin in lower case must get the same answer) are resolved with WorkflowGraph.environmentForNode (FlowIRConcrete+configuration graph and full "
    "Experiment) under a controlled os.environ; the result must equal the model exactly (system variables + declared "
    "sources), an undefined environment must raise FlowIREnvironmentUnknown, and no unreferenced launch variable may "
    "appear by name or value.",
    "os.environ is replaced in-process and always restored; unspecified corners (empty values, cyclic references, "
    "selecting 'environment' when undefined) accept both behaviours, listed in evidence assumptions.",
    "DESIGN.md section 3, C17")

add("C18", "fault_enumeration", "property-based testing with hostile-input enumeration (Hypothesis + a deterministic "
    "catalogue): generated archives/manifests; file-system snapshot diff of everything outside the target; independent "
    "virtual-file-system model classifying each input as escaping or clean",
    "Real Job.stageIn (copy/link/extract references on an instantiated experiment) and real package deployment "
    "(expandPackageToDirectory / packageFromLocation + newInstanceDirectory, Manifest.validate) run on generated tar "
    "archives (.. segments, absolute names, symlink/hardlink members, chains, links staged by other references) and "
    "manifests (.. keys, nested keys, keys below linked folders) inside a per-case sandbox; a recursive lstat snapshot of "
    "everything outside the target must be unchanged, escaping inputs must be rejected with the staging/packaging error "
    "types, and each hostile case's benign twin must still stage correctly. A catalogue of ~1700 cases (technique x "
    "climb x landing x position x tar format, references ending in .., reserved manifest keys) is enumerated on every run.",
    "The kernel-like path-resolution model in vf/fault/c18_vfs.py is trusted to classify inputs; device members are "
    "outside the domain; for manifest keys conf/input/stages/output and references ending in .. only the "
    "no-change-outside oracle applies.", "DESIGN.md section 3, C18")

add("C13", "exploration", "property-based testing (Hypothesis): generated histories (output times, notification time, "
    "external kill, task durations/outcomes, engine options) replayed by a discrete-event simulation of the real "
    "RepeatingEngine + real monitor.CreateMonitor on a virtual clock; history invariants as oracle",
    "The real RepeatingEngine.run / EngineTaskController / notify_all_producers_finished / kill and the real "
    "monitor.CreateMonitor loop execute inline on a virtual clock; generated histories place the producers-finished "
    "notification before start, during sleeps and inside tasks, with failing/raising/long tasks, retries 0/1/3, "
    "kill-after delays and both producer kinds. Checked: no execution before consumable output exists, an execution that "
    "started after the last output exists before the engine stops (unless cancelled or never able to consume), it stops "
    "after the first successful post-notification execution or within retries+4 kernel invocations / before the "
    "horizon, and ends dead with exit reason Success or ResourceExhausted. One or two producers (every same-stage "
    "producer must have output at each launch). Sub-check `wired`: real ComponentState objects (stageIn subscription to "
    "the producers' notifyFinished) on the deterministic kernel with 2-3 subjects finishing at generated moments.",
    "Duck-typed model job (producer output answers come from generated times using the rule of "
    "Job.producersHaveOutputSinceDate); inline monitor thread, FIFO delivery of rx emissions; liveness as a virtual-time "
    "horizon.", "DESIGN.md section 3, C13")
add("C19", "exploration", "property-based testing (Hypothesis): generated legacy-expressible workflows; round-trip "
    "Dosini.dump -> Dosini.load_from_directory compared on resolved configurations; deterministic sweep over the whole "
    "option mapping table",
    "Instance descriptions of generated workflows (every option key the legacy format can express, stage/global "
    "variables, blueprints, environments, replication, status/output sections, values with spaces % : = # ; quotes) are "
    "written with Dosini.dump in four modes (full/sparse instance, package dump, hand-written legacy package -> instance) "
    "and loaded back; per component the resolved configuration, references and variables, plus environments, status and "
    "output sections must be equal. A deterministic sweep touches each of the 49 keys of the mapping table in every mode on "
    "every run. A third of the multi-stage instance cases are followed by a second dump (workflow minus its last stage) "
    "into the same directory. Sub-check `reconf`: DOSINIExperimentConfiguration creates the instance files of a small "
    "legacy package, reloads the instance with a user variable file and updateInstanceFiles; the files must describe the "
    "configuration that was built.", "Domain restricted to what both the writer and the parser define (single-line ASCII values, numeric "
    "options are numbers or one whole %(var)s reference); errors the loader only collects are not violations.",
    "DESIGN.md section 3, C19")

add("C03", "exploration", "property-based testing (Hypothesis): construction-based abstract workflows with confusable "
    "names; independent replication model on the abstract workflow vs WorkflowGraph.graphFromFlowIR(primitive=False)",
    "Abstract acyclic workflows (names that are prefixes/suffixes/substrings of each other or equal across stages, both "
    "reference spellings, file paths, all graph-level methods, the same producer referenced through two methods, replica "
    "counts literal or via global/stage/component variables, aggregators) are rendered to FlowIR and expanded by the "
    "repository; node set, per-node references (aggregators: index order), arguments (token-wise), edges, replica "
    "index/count and untouched fields must equal an independent expander working on the abstract workflow; a valid "
    "workflow being rejected is a violation.",
    "Names in [A-Za-z0-9_.-]+, unique per stage also after replica suffixes (and not equal to another component's replica "
    "name); one replica count per workflow; references blank-separated in arguments.", "DESIGN.md section 3, C03")
add("C04", "exploration", "property-based testing (Hypothesis) + exhaustive mask enumeration: generated layered "
    "documents vs an independent overlay-and-substitute model",
    "Every define/omit mask of one variable over 12 layers and one option per declared type over 10 layers is enumerated "
    "for both platform choices (16k cases); Hypothesis adds documents with typed variables, reference chains spanning "
    "layers, dangling references, inactive platforms/stages/overrides and cache-warming queries; user variables go "
    "through a real variable file and a real package/Experiment. The resolved configuration must equal the model "
    "(value, error for undefined references, declared Python types). One open known finding (early binding in the "
    "replicated FlowIR) is excluded by signature.",
    "Option values limited to what the package schema accepts; single variable file; bool options given through a "
    "reference are only type-checked.", "DESIGN.md section 3, C04")

add("C05", "exploration", "property-based testing (Hypothesis): grammar-generated DoWhile documents unrolled step by "
    "step on a real instance (k up to 13 quick / 25 thorough); independent loop model as oracle after every iteration",
    "DoWhile documents (1-4 looped components over <=2 loop stages, replication/aggregation inside the loop, input and "
    "loop bindings, condition on stdout or file, import stage 0-2, outside consumers using ref/output/copy/loopref/"
    "loopoutput, optional reload from disk, two loops interleaved incl. restart) are instantiated iteration by iteration "
    "the way the Controller does; after every step node set, per-instance references/predecessors, placeholder 'latest', "
    "currentIteration/currentCondition, DataReference.resolve() of outside references and :loopref order are compared with "
    "an independent model. Two anchor workflows always reach k>=12. Sub-check `controller`: the real Controller unrolls "
    "generated loops under the deterministic kernel with scripted condition outcomes.",
    "Letters-only non-overlapping names, non-replicated loop-binding/condition producers, disjoint stage ranges for two "
    "loops; iterations are instantiated by a driver mirroring Controller._instantiate_next_dowhile_iteration.",
    "DESIGN.md section 3, C05")

add("C06", "exploration", "property-based testing (Hypothesis): 'fold' generator (abstract flat dataflow folded into nested "
    "workflows/parameters) with the flat model as oracle; single-fault mutation sub-check for invalid namespaces",
    "An abstract flat dataflow (<=8 tagged leaves over <=3 component templates, edges with path and method) is drawn "
    "first and then folded into nested workflows to depth 4 (templates instantiated several times, values travelling "
    "inline or through parameters with defaults/overrides, every reference spelling, reused step names). "
    "namespace_to_flowir must yield one uniquely named component per leaf whose references (parsed), arguments and "
    "executable equal the flat model, leave no parameter reference and validate cleanly. 23 kinds of invalidating "
    "mutations must be rejected by pydantic.ValidationError or a DSLInvalidError with located underlying errors - any "
    "other exception, acceptance or hang (CPU-time watchdog) is a violation.",
    "Not generated: replicate/aggregate in DSL, interface (key outputs only as :ref references to leaf steps), input./data. entry parameters, dict-valued "
    "parameters, several references in one parameter value.", "DESIGN.md section 3, C06")
add("C16", "exploration", "property-based testing (Hypothesis): pairs of instantiated experiments differing in exactly one "
    "aspect; independent 'work descriptor' model decides whether hashes must be equal",
    "An abstract workflow (1-5 components, references to component files/directories/stdout, input/, data/, external "
    "paths, all methods, both spellings, images, replication, confusable and digit-ending names) and a single-aspect "
    "mutation of it are instantiated as real Experiments in different directories; for all node pairs across both, "
    "strong hashes must be equal exactly when the independent work descriptors (executable, image, arguments with "
    "references replaced by content/producer descriptors, consumed (content, method) multiset) are equal; no hash while "
    "an input is missing; hashes stable across reads, memoization_reset and checkExecutable(); fuzzy hashes ignore produced-file contents "
    "and follow producer fuzzy hashes. One open known finding (directory contents) is excluded by signature.",
    "Files produced by components are written by the harness; the contrived separator-less serialisation collision is "
    "outside the generated domain.", "DESIGN.md section 3, C16")

add("C07", "exploration", "property-based testing (Hypothesis): generated packages and store/load histories on real "
    "instances; round-trip oracle between the writing experiment and the reloaded one",
    "Packages built on the shared workflow generator and extended with platforms, layered variables, blueprints, "
    "overrides, user variable files and optional DoWhile documents are instantiated; histories of loop iterations and 1-3 "
    "store_unreplicated_flowir_to_disk / experimentFromInstance cycles are replayed; writer and reloaded experiment must "
    "agree on node set, edges, parsed references and configurationForNode(raw=False) per node (value and type), on the "
    "DoWhile state, and the stored description must not change after a second store.",
    "Reloaded for the creation platform; run-time setOptionForNode patches are outside the domain (by design not part of "
    "the stored description); stale condition edges of earlier loop iterations and reference spelling are not compared.",
    "DESIGN.md section 3, C07")
add("C10", "exploration", "property-based testing (Hypothesis): token-list argument strings over confusable producer "
    "names on real instances; expected string built from the token list; metamorphic relation over declaration order",
    "Real Experiment instances with 2-5 producers whose names are prefixes/suffixes/substrings of each other or equal "
    "across stages; argument strings are token lists of literals and ref/output references (both spellings, file paths, "
    "direct references, realistic separators); each string is given to 2-3 consumers differing only in declaration order "
    "and spelling. resolveArguments() must equal the concatenation of the literals and each reference's own value (path, "
    "or file text for :output) for every order, and checkDataReferences() must not report unused/undeclared references.",
    "loopref/loopoutput, replication and %(var)s / [n] interpolation in arguments are not generated; names starting with "
    "'stage<N>.' are excluded (C09's domain).", "DESIGN.md section 3, C10")
add("C11", "exploration", "property-based testing (Hypothesis): valid generated documents must load and be structurally "
    "sound on three load routes; exactly-one-fault mutants of them must be rejected with the invalid-configuration error",
    "Documents from the shared workflow generator extended with platforms, typed options (43-entry table) placed in "
    "components/overrides/blueprints, layered variables and environments are loaded through graphFromFlowIR, "
    "configurationForExperiment and packageFromLocation+experimentFromPackage: what loads must be acyclic, have unique "
    "ids, only resolvable references and resolvable configurations. Single faults (dangling reference, cycle, duplicate "
    "id incl. replica names, unknown key at any depth, mistyped option, undefined variable), applied only at positions "
    "the valid twin uses, must be rejected on every route with ExperimentInvalidConfigurationError (memory route: also the "
    "FlowIRException family) - acceptance, another exception type or a hang (60 s guard) is a violation.",
    "A valid twin that does not load is reported as a harness error (the statement is an implication); wrong values are "
    "non-convertible ones.", "DESIGN.md section 3, C11")
add("C15", "exploration", "property-based testing (Hypothesis) with a cross-process differential: batches of generated "
    "packages loaded by child interpreters with different PYTHONHASHSEED, key-permuted equal documents and permuted "
    "directory listings; canonical dumps compared, plus a model for variable-file layering",
    "The parent writes a batch of generated FlowIR, DSL and legacy (DOSINI, optionally with stale instance files) packages (>=2 user variable files with overlapping keys, "
    "manifests, environments, duplicate DSL step names); child interpreters started with different hash seeds load "
    "independently key-permuted renderings under a permuted os.listdir/scandir and dump component names, edges, "
    "environments, resolved configurations and memoization hashes canonically; all dumps must be identical and a key "
    "defined in two variable files must take the last file's value (checked against the model, not only across runs).",
    "A commit to /repo while a batch is being compared is detected and reported as a harness error, not a violation.",
    "DESIGN.md section 3, C15")
