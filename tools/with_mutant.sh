#!/bin/bash
# usage: tools/with_mutant.sh <patch.diff> <ID> [quick|thorough]
# Runs check <ID> against a scratch copy of /repo/python with the patch applied (never touches /repo or the
# committed evidence). Prints the check's output; exit code is the check's.
set -u
patch_file=$(readlink -f "$1"); id=$2; tier=${3:-quick}
d=$(mktemp -d /dev/shm/mut.XXXXXX)
trap 'rm -rf "$d"' EXIT
rsync -a --exclude '__pycache__' /repo/python "$d/"
(cd "$d" && patch -p1 --quiet < "$patch_file") || { echo "patch failed"; exit 3; }
cd /verif
PYTHONPATH="$d/python" VERIF_EVIDENCE_DIR="$d/evidence" VERIF_REPLAY_DIR="$d/replays" \
  /venv/bin/python -m vf.run "$id" --tier "$tier"
rc=$?
if [ -d "$d/replays" ]; then mkdir -p /dev/shm/mut-replays; cp -r "$d/replays/." /dev/shm/mut-replays/ 2>/dev/null; fi
exit $rc
