#!/usr/bin/env python3
"""usage: mkmutant.py <out.diff> <repo-relative-file>   (spec on stdin)

stdin:  <old text> NEWLINE ===== NEWLINE <new text>
Writes a unified diff (a/ b/ prefixes) replacing the unique occurrence of <old text> in /repo/<file> by <new text>.
"""
import difflib
import sys

out, rel = sys.argv[1], sys.argv[2]
spec = sys.stdin.read()
old, new = spec.split("\n=====\n")
old = old.strip("\n")
new = new.rstrip("\n").lstrip("\n")
src = open("/repo/" + rel).read()
if src.count(old) != 1:
    sys.exit("old text occurs %d times in %s" % (src.count(old), rel))
dst = src.replace(old, new)
d = difflib.unified_diff(src.splitlines(True), dst.splitlines(True), "a/" + rel, "b/" + rel)
open(out, "w").write("".join(d))
print("wrote", out)
