#!/usr/bin/env python3
"""Regenerates /verif/MANIFEST.json from the table below (run after adding a check)."""
import json, os, sys
VERIF = os.path.dirname(os.path.dirname(os.path.abspath(__file__)))

SETUP = ("/venv/bin/python -c 'import hypothesis' 2>/dev/null || "
         "/venv/bin/pip install --no-index --find-links /opt/veriftools/wheels hypothesis; "
         "/venv/bin/python -c 'import hypothesis, experiment; print(hypothesis.__version__)'")

# id -> (category, technique, level text, level note, design_ref)
CHECKS = {}

def add(pid, category, technique, text, note, ref):
    CHECKS[pid] = (category, technique, text, note, ref)

exec(open(os.path.join(VERIF, "tools", "manifest_table.py")).read())

props = [json.loads(l)["id"] for l in open(os.path.join(VERIF, "properties.jsonl"))]
checks = []
na = []
for pid in props:
    if pid in CHECKS and os.path.exists(os.path.join(VERIF, "vf", "checks", pid.lower() + ".py")):
        category, technique, text, note, ref = CHECKS[pid]
        checks.append({
            "property_id": pid,
            "quick_cmd": "cd /verif && /venv/bin/python -m vf.run %s --tier quick" % pid,
            "thorough_cmd": "cd /verif && /venv/bin/python -m vf.run %s --tier thorough" % pid,
            "evidence_file": "/verif/evidence/%s.json" % pid,
            "replay_cmd_template": "cd /verif && /venv/bin/python -m vf.replay {path}",
            "engine": "vf",
            "level_claimed": {"category": category, "text": text, "design_ref": ref},
            "level_note": note,
            "technique": technique,
        })
    else:
        na.append({"property_id": pid, "reason": NOT_YET.get(pid, "check not built yet in this round (planned: DESIGN.md section 3)")})

manifest = {
    "version": 1,
    "setup_cmd": SETUP,
    "hooks": {
        "guard": "ST4SD_RUNTIME_CORE_VERIF",
        "enable": "no source hooks: the harness patches module attributes from outside (schedulers, clocks, engine factories); nothing to enable",
        "baseline_off_cmd": "cd /repo && /venv/bin/python -m pytest -ra -q -p no:cacheprovider --timeout=900 --continue-on-collection-errors",
        "source_commits": [],
        "add_only": True,
    },
    "engines": [{"name": "vf", "path": "/verif/vf", "serves_properties": [c["property_id"] for c in checks],
                 "kind_free_text": "Hypothesis-driven property-based testing (generated inputs / histories / schedules / injected faults against explicit oracles), python -m vf.run"}],
    "checks": checks,
    "not_applicable": na,
    "notes": NOTES,
}
with open(os.path.join(VERIF, "MANIFEST.json"), "w") as f:
    json.dump(manifest, f, indent=1)
try:
    import jsonschema
    jsonschema.validate(manifest, json.load(open("/root/.vp/MANIFEST.schema.json")))
    print("MANIFEST.json valid: %d checks, %d not_applicable" % (len(checks), len(na)))
except ImportError:
    print("MANIFEST.json written (jsonschema not available to validate): %d checks" % len(checks))
