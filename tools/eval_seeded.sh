#!/bin/bash
# usage: tools/eval_seeded.sh <ID> <name> <srcdir> [tier]
#   <srcdir> holds patch.diff, demo.py (or demo_test.py), notes.md written by an isolated seeding agent.
# Confirms the seeded change independently (patch applies to the current /repo tree in a scratch copy, demo fails with
# it and passes without), runs the registered check of <ID> against the patched scratch copy, and files everything under
# /verif/seeded/<ID>/<name>/ with a meta.json. Never touches /repo.
set -u
id=$1; name=$2; src=$(readlink -f "$3"); tier=${4:-quick}
out=/verif/seeded/$id/$name
mkdir -p "$out"
cp "$src/patch.diff" "$out/patch.diff"
[ -f "$src/notes.md" ] && cp "$src/notes.md" "$out/notes.md"
demo=""
for f in demo.py demo_test.py; do [ -f "$src/$f" ] && { cp "$src/$f" "$out/$f"; demo=$f; }; done
d=$(mktemp -d /dev/shm/seed.XXXXXX)
trap 'rm -rf "$d"' EXIT
rsync -a --exclude '__pycache__' /repo/python "$d/"
applies=true
(cd "$d" && patch -p1 --quiet < "$out/patch.diff") || applies=false
demo_patched=na; demo_clean=na
if $applies && [ -n "$demo" ]; then
  if [ "$demo" = demo.py ]; then
    (cd "$d" && PYTHONWARNINGS=ignore PYTHONPATH="$d/python" timeout 900 /venv/bin/python "$out/$demo" > "$out/demo_patched.log" 2>&1); demo_patched=$?
    (cd "$d" && PYTHONWARNINGS=ignore PYTHONPATH="/repo/python" timeout 900 /venv/bin/python "$out/$demo" > "$out/demo_clean.log" 2>&1); demo_clean=$?
  else
    (cd "$d" && PYTHONPATH="$d/python" timeout 900 /venv/bin/python -m pytest -q -p no:cacheprovider "$out/$demo" > "$out/demo_patched.log" 2>&1); demo_patched=$?
    (cd "$d" && PYTHONPATH="/repo/python" timeout 900 /venv/bin/python -m pytest -q -p no:cacheprovider "$out/$demo" > "$out/demo_clean.log" 2>&1); demo_clean=$?
  fi
fi
check_rc=na; sigs=""
if $applies; then
  cd /verif
  PYTHONPATH="$d/python" VERIF_EVIDENCE_DIR="$d/evidence" VERIF_REPLAY_DIR="$d/replays" \
    timeout 3000 /venv/bin/python -m vf.run "$id" --tier "$tier" > "$out/check_$tier.log" 2>&1
  check_rc=$?
  sigs=$(grep -o "sig=[^ ]*" "$out/check_$tier.log" | sort -u | tr '\n' ' ')
fi
python3 - "$id" "$name" "$out" "$applies" "$demo_patched" "$demo_clean" "$check_rc" "$tier" "$sigs" <<'EOF'
import json, sys, os
id_, name, out, applies, dp, dc, rc, tier, sigs = sys.argv[1:10]
meta_p = os.path.join(out, "meta.json")
meta = json.load(open(meta_p)) if os.path.exists(meta_p) else {}
meta.update({"property": id_, "name": name, "patch_applies_to_current_repo": applies == "true",
             "demo_exit_with_patch": dp, "demo_exit_without_patch": dc,
             "confirmed": applies == "true" and dp not in ("0", "na") and dc == "0"})
meta.setdefault("checks", {})[tier] = {"cmd": "tools/with_mutant.sh seeded/%s/%s/patch.diff %s %s" % (id_, name, id_, tier),
                                        "exit": rc, "caught": rc == "1", "signatures": sigs.split()}
json.dump(meta, open(meta_p, "w"), indent=1)
print(json.dumps(meta, indent=1))
EOF
