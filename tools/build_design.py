#!/usr/bin/env python3
"""Splices tools/design_asbuilt.md (section 0) and tools/design_results.md (+ design_seeded.md) into DESIGN.md."""
import os, re
V = os.path.dirname(os.path.dirname(os.path.abspath(__file__)))
d = open(os.path.join(V, "DESIGN.md")).read()
sec0 = open(os.path.join(V, "tools", "design_asbuilt.md")).read()
res = open(os.path.join(V, "tools", "design_results.md")).read()
seeded_p = os.path.join(V, "tools", "design_seeded.md")
seeded = open(seeded_p).read() if os.path.exists(seeded_p) else ""
# drop previously spliced blocks
d = re.sub(r"<!-- ASBUILT-BEGIN -->.*?<!-- ASBUILT-END -->\n", "", d, flags=re.S)
d = re.sub(r"<!-- RESULTS-BEGIN -->.*?<!-- RESULTS-END -->\n", "", d, flags=re.S)
marker = "## 1. Why generated checks reach what the 294 tests cannot"
d = d.replace(marker, "<!-- ASBUILT-BEGIN -->\n" + sec0 + "<!-- ASBUILT-END -->\n" + marker, 1)
app = "## Appendix A"
d = d.replace(app, "<!-- RESULTS-BEGIN -->\n" + res + "\n" + seeded + "\n---------------------------------------------------------------------------------------------------\n\n<!-- RESULTS-END -->\n" + app, 1)
d = d.replace("Status: design only (round 0). No framework code exists yet; every mechanism below that is\nmarked *prototyped* was tried in a throw-away script outside /verif to make sure the idea is\nfeasible in this sandbox, and the measured numbers are quoted.",
              "Status: built. Section 0 and section 7 describe what exists and what it found; sections 1-6 are the\nround-0 design they were built from (kept for the reasoning; where they differ, section 0 wins).")
open(os.path.join(V, "DESIGN.md"), "w").write(d)
print("DESIGN.md rebuilt:", len(d.splitlines()), "lines")
