#!/bin/bash
# usage: tools/run_all.sh [tier] [seed]   - runs every registered check once, prints one line each
tier=${1:-quick}; seed=${2:-1}
cd /verif
for id in $(python3 -c "import json; print(' '.join(c['property_id'] for c in json.load(open('MANIFEST.json'))['checks']))"); do
  s=$(date +%s)
  out=$(VERIF_SEED=$seed /venv/bin/python -m vf.run $id --tier $tier 2>&1 | grep -E "^C[0-9]+ tier|VIOLATION|HARNESS" | tr '\n' ' ')
  echo "$id $(( $(date +%s) - s ))s :: ${out:0:300}"
done
