#!/usr/bin/env python3
"""Writes tools/design_seeded.md from seeded/*/*/meta.json."""
import json, os, glob
V = os.path.dirname(os.path.dirname(os.path.abspath(__file__)))
rows = []
for p in sorted(glob.glob(os.path.join(V, "seeded", "*", "*", "meta.json"))):
    m = json.load(open(p))
    diff = open(os.path.join(os.path.dirname(p), "patch.diff")).read()
    files = sorted({l.split(" b/")[-1].strip() for l in diff.splitlines() if l.startswith("diff --git")})
    chk = m.get("checks", {}).get("quick", {})
    sigs = ", ".join(sorted({s.replace("sig=", "") for s in chk.get("signatures", [])}))[:140]
    rows.append((m["property"], m["name"], ", ".join(f.replace("python/experiment/", "") for f in files),
                 m.get("needs", ""), "yes" if m.get("confirmed") else ("superseded" if m.get("superseded") else "NO"),
                 ("**missed first** - " + m.get("strengthening", "")) if m.get("missed_before_strengthening") else "",
                 "caught: `%s`" % sigs if chk.get("caught") else
                 ("own check silent; caught by " + m["caught_by_other_check"]) if m.get("caught_by_other_check") else
                 ("n/a - " + m["superseded"]) if m.get("superseded") else
                 "NOT CAUGHT" + (" (%s)" % m["not_caught_reason"] if m.get("not_caught_reason") else "")))
out = ["## 8. Seeded changes from isolated sub-agents", "",
       "Each seeding agent got only the JSON record of one property and its own scratch git worktree (nothing from /verif) and",
       "produced two independent changes that break the property while the touched test files still pass (first wave: A, B; a second",
       "wave of fresh agents, told only which mechanisms were already taken, produced C, D; further waves E, F and G, H, and I, J for all twenty properties), each with a",
       "demo that fails with the change and passes without. `tools/eval_seeded.sh` re-confirms every one independently (the patch",
       "applies to the current tree in a scratch copy, the demo fails with it and passes without) and runs the registered quick",
       "check against the patched copy; everything is filed under `seeded/<ID>/<A..J>/` (`patch.diff`, `demo.py`, `notes.md`,",
       "`meta.json`, logs). %d changes, all confirmed on the tree they were written for (%d later neutralised by a repo fix that" % (
           len(rows), sum(r[4] == "superseded" for r in rows)),
       "removed the window they relied on: marked superseded). On the final tree: %d caught by the quick check of their own" % (
           sum(r[6].startswith("caught") for r in rows)),
       "property, %d by the quick check of the neighbouring property whose domain they fall in (named in the row), %d are not" % (
           sum(r[6].startswith("own check silent") for r in rows), sum(r[6].startswith("NOT CAUGHT") for r in rows)),
       "caught (the reason - an interleaving no harness produces, or a situation outside the domain of the statement - is given in the row); %d of all" % (
           sum(bool(r[5]) for r in rows)),
       "changes were missed by the version of the check that existed when they arrived and led to the strengthening named in the",
       "table (generator reach or an additional relation, never a loosened oracle). Three patches (C01/A, C01/E, C02/D) were rebased",
       "by the lead after fix 66deeec rewrote the lines they touch (the originals are kept as patch_original.diff).", "",
       "| change | touches | needs, in order to manifest | confirmed | quick check | history |", "|---|---|---|---|---|---|"]
for r in rows:
    out.append("| %s/%s | %s | %s | %s | %s | %s |" % (r[0], r[1], r[2], r[3], r[4], r[6], r[5]))
open(os.path.join(V, "tools", "design_seeded.md"), "w").write("\n".join(out) + "\n")
print(len(rows), "rows")
